// Native replay for unit C10_topx: the independent oracle program written for seed C13-2 by a sub-agent that saw only the property text
// (exit 0: property held on everything tried; non-zero: a failing input is printed).  Runs the public API of the library built from /repo's working tree.
// LINK: engine offset rectclip
// DEFS: -DUSINGZ
// C13 seed 2 demo: integer-scaling equivariance of boolean operations.
//
// Property clause: "... integer-scaling the input transforms the result accordingly"
// (region equality at all points outside the tolerance band), for coordinates up to +-2^40.
//
// For polygons in general position (|coords| <= 500) and integer scale factors k up to 2^31
// (so that |k*coords| < 2^40), the demo runs Clipper64 on the scaled input and checks
//   (1) an independent point-sampling oracle: for sample points further than TOL*k from every
//       (scaled) input edge, membership in the solution (non-zero winding number w.r.t. the
//       solution paths) must equal  op(fill(winding(subject)), fill(winding(clip)))  computed
//       directly from the scaled input with exact __int128 arithmetic;
//   (2) a metamorphic check: area(solution(k*P)) must equal k^2 * area(solution(P)) up to a
//       perimeter-proportional rounding allowance.
// Returns 0 when everything holds, 1 on the first violation, 2 on watchdog timeout.

#include "clipper2/clipper.h"
#include <cstdio>
#include <cstdlib>
#include <cstdint>
#include <cmath>
#include <random>
#include <vector>
#include <thread>
#include <chrono>
#include <atomic>

using namespace Clipper2Lib;
typedef __int128 i128;

static const double TOL = 3.0;
static const char* ctn[] = { "NoClip","Intersection","Union","Difference","Xor" };
static const char* frn[] = { "EvenOdd","NonZero","Positive","Negative" };

static int Winding(const Paths64& pp, int64_t px, int64_t py)
{
  int wn = 0;
  for (const Path64& p : pp) {
    size_t n = p.size();
    if (n < 3) continue;
    for (size_t i = 0; i < n; ++i) {
      const Point64& a = p[i]; const Point64& b = p[(i + 1) % n];
      if (a.y <= py) {
        if (b.y > py && (i128)(b.x - a.x) * (py - a.y) - (i128)(px - a.x) * (b.y - a.y) > 0) ++wn;
      } else if (b.y <= py) {
        if ((i128)(b.x - a.x) * (py - a.y) - (i128)(px - a.x) * (b.y - a.y) < 0) --wn;
      }
    }
  }
  return wn;
}

static bool NearEdge(const Paths64& pp, int64_t px, int64_t py, double tol)
{
  for (const Path64& p : pp) {
    size_t n = p.size();
    for (size_t i = 0; i < n; ++i) {
      const Point64& a = p[i]; const Point64& b = p[(i + 1) % n];
      long double ax = (long double)(a.x - px), ay = (long double)(a.y - py);
      long double dx = (long double)(b.x - a.x), dy = (long double)(b.y - a.y);
      long double len2 = dx * dx + dy * dy;
      long double t = len2 == 0 ? 0 : -(ax * dx + ay * dy) / len2;
      if (t < 0) t = 0; if (t > 1) t = 1;
      long double qx = ax + t * dx, qy = ay + t * dy;
      if (qx * qx + qy * qy <= (long double)tol * tol) return true;
    }
  }
  return false;
}

static bool Filled(FillRule fr, int w)
{
  switch (fr) {
  case FillRule::EvenOdd: return (w & 1) != 0;
  case FillRule::NonZero: return w != 0;
  case FillRule::Positive: return w > 0;
  default: return w < 0;
  }
}
static bool Expected(ClipType ct, bool s, bool c)
{
  switch (ct) {
  case ClipType::Intersection: return s && c;
  case ClipType::Union: return s || c;
  case ClipType::Difference: return s && !c;
  default: return s != c; // Xor
  }
}
static Paths64 Scale(const Paths64& pp, int64_t k)
{
  Paths64 r;
  for (const Path64& p : pp) { Path64 q; for (const Point64& pt : p) q.push_back(Point64(pt.x * k, pt.y * k)); r.push_back(q); }
  return r;
}
static void Print(const char* name, const Paths64& pp)
{
  printf("  %s:\n", name);
  for (const Path64& p : pp) { printf("    "); for (const Point64& q : p) printf("%lld,%lld ", (long long)q.x, (long long)q.y); printf("\n"); }
}
// exact perimeter-ish bound and area, computed relative to a local origin (no big-number cancellation)
static long double AreaRel(const Paths64& pp, int64_t ox, int64_t oy)
{
  long double a = 0;
  for (const Path64& p : pp) {
    size_t n = p.size();
    for (size_t i = 0; i < n; ++i) {
      const Point64& u = p[i]; const Point64& v = p[(i + 1) % n];
      a += (long double)(u.x - ox) * (long double)(v.y - oy) - (long double)(v.x - ox) * (long double)(u.y - oy);
    }
  }
  return a / 2;
}
static long double Perimeter(const Paths64& pp)
{
  long double s = 0;
  for (const Path64& p : pp) {
    size_t n = p.size();
    for (size_t i = 0; i < n; ++i) {
      const Point64& u = p[i]; const Point64& v = p[(i + 1) % n];
      s += std::hypot((long double)(v.x - u.x), (long double)(v.y - u.y));
    }
  }
  return s;
}

static std::atomic<bool> done(false);

int main()
{
  std::thread watchdog([] {
    for (int i = 0; i < 1000 && !done; ++i) std::this_thread::sleep_for(std::chrono::milliseconds(100));
    if (!done) { printf("VIOLATION: no answer within 100 s (library did not terminate)\n"); fflush(stdout); _Exit(2); }
  });

  const int64_t scales[] = { 1, 3, 1000, (int64_t)1 << 20, 1000000007LL / 7, (int64_t)1 << 28, 1000000007LL, (int64_t)1 << 31 };
  const int NSC = sizeof(scales) / sizeof(scales[0]);

  std::mt19937_64 rng(20240914);
  auto rnd = [&](int64_t lo, int64_t hi) { return lo + (int64_t)(rng() % (uint64_t)(hi - lo + 1)); };
  long checks = 0, samples = 0;
  for (int it = 0; it < 60; ++it) {
    auto mk = [&](int np) {
      Paths64 pp;
      for (int i = 0; i < np; ++i) { Path64 p; int nv = (int)rnd(3, 6); for (int k = 0; k < nv; ++k) p.push_back(Point64(rnd(-500, 500), rnd(-500, 500))); pp.push_back(p); }
      return pp; };
    Paths64 subj0 = mk((int)rnd(1, 2)), clip0 = mk((int)rnd(1, 2));
    Paths64 all0 = subj0; all0.insert(all0.end(), clip0.begin(), clip0.end());
    // sample points (in unscaled coordinates) that keep clear of every input edge
    std::vector<Point64> pts;
    for (int k = 0; k < 400; ++k) {
      int64_t px = rnd(-520, 520), py = rnd(-520, 520);
      if (!NearEdge(all0, px, py, TOL)) pts.push_back(Point64(px, py));
    }
    for (int cti = 1; cti <= 4; ++cti) for (int fri = 0; fri < 4; ++fri) {
      ClipType ct = (ClipType)cti; FillRule fr = (FillRule)fri;
      long double area1 = 0, perim1 = 0;
      for (int si = 0; si < NSC; ++si) {
        int64_t k = scales[si];
        Paths64 subj = Scale(subj0, k), clip = Scale(clip0, k), sol;
        Clipper64 c; c.AddSubject(subj); c.AddClip(clip);
        bool ok = c.Execute(ct, fr, sol);
        ++checks;
        const char* why = nullptr; int64_t bx = 0, by = 0;
        if (!ok) why = "Execute returned false";
        // (1) independent sampling oracle on the scaled input
        for (size_t i = 0; i < pts.size() && !why; ++i) {
          int64_t px = pts[i].x * k, py = pts[i].y * k;   // at least TOL*k >= TOL away from all scaled edges
          ++samples;
          bool exp = Expected(ct, Filled(fr, Winding(subj, px, py)), Filled(fr, Winding(clip, px, py)));
          bool got = Winding(sol, px, py) != 0;
          if (exp != got) { why = "sample point classified wrongly by the solution"; bx = px; by = py; }
        }
        // (2) metamorphic area check against the unscaled run
        long double area = AreaRel(sol, 0, 0);
        if (si == 0) { area1 = area; perim1 = Perimeter(sol); }
        else if (!why && fabsl(area - area1 * k * k) > (2.0L * perim1 + 16.0L) * k * k) why = "solution area is not k^2 times the unscaled solution area";
        if (why) {
          printf("VIOLATION (integer-scaling clause) input #%d, %s %s, scale k=%lld: %s\n", it, ctn[cti], frn[fri], (long long)k, why);
          if (bx || by) printf("  sample point %lld,%lld (= k * %lld,%lld)\n", (long long)bx, (long long)by, (long long)(bx / k), (long long)(by / k));
          printf("  area(unscaled)=%.1Lf  area(scaled)/k^2=%.1Lf\n", area1, area / k / k);
          Print("subject (unscaled)", subj0); Print("clip (unscaled)", clip0);
          Print("solution of scaled input", sol);
          Clipper64 c0; Paths64 s0; c0.AddSubject(subj0); c0.AddClip(clip0); c0.Execute(ct, fr, s0);
          Print("k * solution of unscaled input", Scale(s0, k));
          fflush(stdout);
          done = true; watchdog.join();
          return 1;
        }
      }
    }
  }
  printf("OK: %ld executions, %ld sample points, integer-scaling equivariance holds within tolerance\n", checks, samples);
  done = true; watchdog.join();
  return 0;
}
