// LINK: engine offset rectclip
// Native replay for unit C17_export (also used by C11): every exported function against the C++ call it is documented
// to equal, over argument combinations, plus the argument validation codes.
#include "clipper2/clipper.h"
#include "clipper2/clipper.export.h"
#include "vf_replay.h"
using namespace Clipper2Lib;
template <typename T> static bool same_arr(T* a, T* b) { if (!a || !b) return a == b; size_t n = (size_t)a[0]; if ((size_t)b[0] != n) return false; for (size_t i = 0; i < n; ++i) if (a[i] != b[i]) return false; return true; }
int main(int argc, char** argv) {
  VfRng r(argc > 1 ? strtoull(argv[1], 0, 10) : 0);
  Paths64 subj = { { {0,0},{50,0},{100,0},{100,100},{0,100} }, { {20,20},{20,80},{80,80},{80,20} } }, clip = { { {50,50},{150,50},{150,150},{50,150} } }, open = { { {-20,30},{200,70} } };
  PathsD subjD = { MakePathD({0.0,0.0, 50.25,0.0, 100.5,0.0, 100.5,100.0, 0.0,100.0}) }, clipD = { MakePathD({50.125,50.0, 150.0,50.5, 150.0,150.0, 50.0,150.0}) };
  CPaths64 cs = CreateCPathsFromPathsT(subj), cc = CreateCPathsFromPathsT(clip), co = CreateCPathsFromPathsT(open);
  CPathsD csD = CreateCPathsDFromPathsD(subjD), ccD = CreateCPathsDFromPathsD(clipD);
  // argument validation
  for (int ct = 0; ct <= 6; ++ct) for (int fr = 0; fr <= 5; ++fr) for (int prec : { -9, -8, 0, 2, 8, 9 }) {
    CPaths64 s1 = nullptr, s2 = nullptr; CPathsD d1 = nullptr, d2 = nullptr; CPolyTree64 t1 = nullptr; CPolyTreeD t2 = nullptr;
    bool ok = ct <= 4 && fr <= 3, okp = prec >= -8 && prec <= 8;
    int rc = BooleanOp64(ct, fr, cs, nullptr, cc, s1, s2, true, false); if ((rc == 0) != ok || (!ok && rc >= 0)) VF_FAIL("BooleanOp64(cliptype %d, fillrule %d) returned %d", ct, fr, rc);
    rc = BooleanOp_PolyTree64(ct, fr, cs, nullptr, cc, t1, s2, true, false); if ((rc == 0) != ok || (!ok && rc >= 0)) VF_FAIL("BooleanOp_PolyTree64(cliptype %d, fillrule %d) returned %d", ct, fr, rc);
    rc = BooleanOpD(ct, fr, csD, nullptr, ccD, d1, d2, prec, true, false); if ((rc == 0) != (ok && okp) || (!(ok && okp) && rc >= 0)) VF_FAIL("BooleanOpD(cliptype %d, fillrule %d, precision %d) returned %d", ct, fr, prec, rc);
    if (ct != 2 || fr > 3) { rc = BooleanOp_PolyTreeD(ct == 2 ? 0 : ct, fr, csD, nullptr, ccD, t2, d2, prec, true, false); bool okk = (ct == 2 ? true : ct <= 4) && fr <= 3 && okp; if ((rc == 0) != okk || (!okk && rc >= 0)) VF_FAIL("BooleanOp_PolyTreeD(cliptype %d, fillrule %d, precision %d) returned %d", ct == 2 ? 0 : ct, fr, prec, rc); }
  }
  // forwarding: boolean ops
  for (int ct = 1; ct <= 4; ++ct) for (int fr = 0; fr <= 3; ++fr) for (int pc = 0; pc <= 1; ++pc) for (int rs = 0; rs <= 1; ++rs) {
    CPaths64 s1 = nullptr, s2 = nullptr; BooleanOp64(ct, fr, cs, co, cc, s1, s2, pc, rs);
    Clipper64 c; c.PreserveCollinear(pc); c.ReverseSolution(rs); c.AddSubject(subj); c.AddOpenSubject(open); c.AddClip(clip); Paths64 a, b; c.Execute((ClipType)ct, (FillRule)fr, a, b);
    if (!same_arr(s1, CreateCPathsFromPathsT(a)) || !same_arr(s2, CreateCPathsFromPathsT(b))) VF_FAIL("BooleanOp64(ct %d, fr %d, preserve_collinear %d, reverse_solution %d) differs from Clipper64", ct, fr, pc, rs);
    for (int prec : { 0, 1, 2, 4 }) { CPathsD d1 = nullptr, d2 = nullptr; BooleanOpD(ct, fr, csD, nullptr, ccD, d1, d2, prec, pc, rs);
      ClipperD cd(prec); cd.PreserveCollinear(pc); cd.ReverseSolution(rs); cd.AddSubject(subjD); cd.AddClip(clipD); PathsD ad, bd; cd.Execute((ClipType)ct, (FillRule)fr, ad, bd);
      if (!same_arr(d1, CreateCPathsDFromPathsD(ad))) VF_FAIL("BooleanOpD(ct %d, fr %d, precision %d, pc %d, rs %d) differs from ClipperD", ct, fr, prec, pc, rs);
      CPolyTreeD td = nullptr; CPathsD od = nullptr; BooleanOp_PolyTreeD(ct, fr, csD, nullptr, ccD, td, od, prec, pc, rs);
      ClipperD ct2(prec); ct2.PreserveCollinear(pc); ct2.ReverseSolution(rs); ct2.AddSubject(subjD); ct2.AddClip(clipD); PolyTreeD tree; PathsD o2; ct2.Execute((ClipType)ct, (FillRule)fr, tree, o2);
      if (!same_arr(td, CreateCPolyTreeD(tree))) VF_FAIL("BooleanOp_PolyTreeD(ct %d, fr %d, precision %d) differs from ClipperD", ct, fr, prec); }
  }
  // forwarding: offsetting
  for (int jt = 0; jt <= 3; ++jt) for (int et = 0; et <= 4; ++et) for (int rs = 0; rs <= 1; ++rs) for (double delta : { 10.0, -4.0 }) for (double at : { 0.0, 0.5 }) {
    CPaths64 g = InflatePaths64(cs, delta, jt, et, 2.5, at, rs);
    ClipperOffset off(2.5, at, false, rs); off.AddPaths(subj, (JoinType)jt, (EndType)et); Paths64 w; off.Execute(delta, w);
    if (!same_arr(g, CreateCPathsFromPathsT(w))) VF_FAIL("InflatePaths64(delta %g, jt %d, et %d, arc_tolerance %g, reverse_solution %d) differs from ClipperOffset", delta, jt, et, at, rs);
    for (int prec : { 0, 2 }) { CPathsD gd = InflatePathsD(csD, delta, jt, et, prec, 2.5, at, rs);
      PathsD wd = InflatePaths(subjD, delta, (JoinType)jt, (EndType)et, 2.5, prec, at); if (rs) for (auto& p : wd) std::reverse(p.begin(), p.end());
      PathsD gdp = ConvertCPathsToPathsT(gd); if (gdp.size() != wd.size()) VF_FAIL("InflatePathsD(delta %g, jt %d, et %d, precision %d, arc_tolerance %g) differs from InflatePaths(PathsD): %zu vs %zu paths", delta, jt, et, prec, at, gdp.size(), wd.size());
      else for (size_t i = 0; i < wd.size(); ++i) if (gdp[i].size() != wd[i].size()) { VF_FAIL("InflatePathsD(delta %g, jt %d, et %d, precision %d, arc_tolerance %g): path %zu has %zu vertices, C++ %zu", delta, jt, et, prec, at, i, gdp[i].size(), wd[i].size()); break; } }
  }
  // rect clipping, Minkowski
  CRect64 cr = { 10, 10, 90, 60 }; Rect64 rr(10, 10, 90, 60);
  if (!same_arr(RectClip64(cr, cs), CreateCPathsFromPathsT(RectClip(rr, subj)))) VF_FAIL("RectClip64 differs from RectClip");
  if (!same_arr(RectClipLines64(cr, co), CreateCPathsFromPathsT(RectClipLines(rr, open)))) VF_FAIL("RectClipLines64 differs from RectClipLines");
  CPath64 pat = CreateCPathsFromPathsT(Paths64{ { {0,0},{5,0},{5,5} } }) + 2, pth = CreateCPathsFromPathsT(Paths64{ subj[1] }) + 2;
  for (int closed = 0; closed <= 1; ++closed) {
    if (!same_arr(MinkowskiSum64(pat, pth, closed), CreateCPathsFromPathsT(MinkowskiSum(Path64{ {0,0},{5,0},{5,5} }, subj[1], closed)))) VF_FAIL("MinkowskiSum64(closed %d) differs", closed);
    if (!same_arr(MinkowskiDiff64(pat, pth, closed), CreateCPathsFromPathsT(MinkowskiDiff(Path64{ {0,0},{5,0},{5,5} }, subj[1], closed)))) VF_FAIL("MinkowskiDiff64(closed %d) differs", closed);
  }
  // marshalling round trip incl. empty paths
  Paths64 withEmpty = { {}, subj[0], {}, subj[1], {} }; CPaths64 m = CreateCPathsFromPathsT(withEmpty);
  if (m[1] != 2) VF_FAIL("CreateCPathsFromPathsT: path count %lld for 2 non-empty paths", (long long)m[1]);
  Paths64 back = ConvertCPathsToPathsT(m); if (back != Paths64{ subj[0], subj[1] }) VF_FAIL("marshalling round trip differs");
  printf("C17_export replay: %d failing inputs\n", vf_fails);
  return vf_fails ? 1 : 0;
}
