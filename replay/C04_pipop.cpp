// LINK: engine
// native replay for C04_pipop: polytree nesting oracle (parent = smallest containing polygon by an independent scan-line count) from an earlier confirmed demonstration written from the property text alone
// Demo / oracle for property C04:
//   "PolyTree solutions carry the same paths with correct nesting"
//
// For every case the same clipping operation is executed with
//   Clipper64 -> Paths64, Clipper64 -> PolyTree64 and (every 4th sweep case and all fixed cases)
//   ClipperD -> PathsD, ClipperD -> PolyTreeD
// and the following is checked with code that uses none of the library's ownership or
// point-in-polygon machinery (only Execute, PolyTreeToPaths, Polygon(), Level(), IsHole(), Area()):
//   1. the multiset of closed paths in the tree == the multiset in the Paths solution
//      (paths normalised by rotation); the same for open paths;
//   2. tree.Area() == Area(paths);
//   3. every node's parent is the SMALLEST other solution polygon that contains a sample point lying
//      just inside the node's own boundary (own scan-line sampling, own even-odd crossing count),
//      or the root when no polygon contains it  -> inside its parent, outside its siblings;
//   4. depth alternates: odd levels are outers with positive area, even levels are holes with
//      negative area, IsHole() and Level() agree, and depth == number of containing polygons + 1.
// Contours that share a piece of an edge with another contour (only seen in degenerate rectilinear
// outputs) are not judged by clause 3 because "inside" is ambiguous there.
//
// usage: demo [scale]   (default scale 20, about 40000 cases, a few seconds)
//        C04_KEEPGOING=1 demo  -> do not stop at the first violation, list them all (exit 0)
// exit 0: property held everywhere; exit 1: a violation was found (the input is printed, together
// with a greedily reduced input when one exists).
//
// Seed 1 (PointInOpPolygon, swapped CrossProductSign arguments) is caught first by the fixed case
// "triangle-hole-island" and then by the general-position families (random-polys, nested-stars).
#include <cstdio>
#include <cstdlib>
#include <cstdint>
#include <cmath>
#include <vector>
#include <string>
#include <algorithm>
#include <iostream>
#include "clipper2/clipper.h"

using namespace Clipper2Lib;

// ---------------------------------------------------------------- PRNG
static uint64_t rng_state = 0x9E3779B97F4A7C15ULL;
static uint64_t rnd64() {
  uint64_t z = (rng_state += 0x9E3779B97F4A7C15ULL);
  z = (z ^ (z >> 30)) * 0xBF58476D1CE4E5B9ULL;
  z = (z ^ (z >> 27)) * 0x94D049BB133111EBULL;
  return z ^ (z >> 31);
}
static int64_t rnd(int64_t lo, int64_t hi) { return lo + (int64_t)(rnd64() % (uint64_t)(hi - lo + 1)); }

// ---------------------------------------------------------------- own geometry
typedef long double ld;

static ld area2(const Path64& p) { // twice the signed area
  ld a = 0; size_t n = p.size();
  for (size_t i = 0; i < n; ++i) {
    const Point64& u = p[i], & v = p[(i + 1) % n];
    a += (ld)u.x * (ld)v.y - (ld)v.x * (ld)u.y;
  }
  return a;
}

// crossings of the horizontal line y = yy (yy is never an integer) with polygon p
static void crossings(const Path64& p, ld yy, std::vector<ld>& xs) {
  xs.clear(); size_t n = p.size();
  for (size_t i = 0; i < n; ++i) {
    const Point64& u = p[i], & v = p[(i + 1) % n];
    if (((ld)u.y < yy) == ((ld)v.y < yy)) continue;
    xs.push_back((ld)u.x + ((ld)v.x - (ld)u.x) * (yy - (ld)u.y) / ((ld)v.y - (ld)u.y));
  }
  std::sort(xs.begin(), xs.end());
}

// A point strictly inside polygon 'self' and immediately next to its boundary: on a few scan
// lines take the leftmost crossing x0 of 'self' and the next crossing x1 (> x0) of ANY polygon of
// the solution; the midpoint of the widest such gap is inside 'self' and no other contour separates
// it from the boundary of 'self' (so it is not inside a hole of 'self').
static bool interior_point(const std::vector<const Path64*>& all, size_t self, ld& sx, ld& sy) {
  const Path64& p = *all[self];
  std::vector<int64_t> ys;
  for (const Point64& pt : p) ys.push_back(pt.y);
  std::sort(ys.begin(), ys.end());
  ys.erase(std::unique(ys.begin(), ys.end()), ys.end());
  if (ys.size() < 2) return false;
  ld best = -1; std::vector<ld> xs, xo;
  size_t step = std::max<size_t>(1, (ys.size() - 1) / 10);
  for (size_t i = 0; i + 1 < ys.size(); i += step) {
    ld yy = ((ld)ys[i] + (ld)ys[i + 1]) / 2;
    if (yy == std::floor(yy)) yy = (ld)ys[i] + 0.5L;
    crossings(p, yy, xs);
    if (xs.size() < 2) continue;
    ld x0 = xs[0], x1 = xs[1];
    bool usable = (x1 - x0 > 1e-6L);
    for (size_t j = 0; j < all.size() && usable; ++j) {
      if (j == self) continue;
      crossings(*all[j], yy, xo);
      for (ld x : xo) {
        if (std::fabs(x - x0) < 1e-6L) usable = false; // another contour runs along this edge: ambiguous
        else if (x > x0 && x < x1) x1 = x;
      }
    }
    if (!usable) continue;
    if (x1 - x0 > best) { best = x1 - x0; sx = (x0 + x1) / 2; sy = yy; }
  }
  return best > 0;
}

static bool contains_pt(const Path64& q, ld sx, ld sy) {
  size_t n = q.size(); int cnt = 0;
  for (size_t i = 0; i < n; ++i) {
    const Point64& u = q[i], & v = q[(i + 1) % n];
    if (((ld)u.y < sy) == ((ld)v.y < sy)) continue;
    ld x = (ld)u.x + ((ld)v.x - (ld)u.x) * (sy - (ld)u.y) / ((ld)v.y - (ld)u.y);
    if (x < sx) ++cnt;
  }
  return cnt & 1;
}

static Path64 normalise(const Path64& p) { // rotate so that the smallest vertex is first
  if (p.empty()) return p;
  size_t m = 0;
  for (size_t i = 1; i < p.size(); ++i)
    if (p[i].x < p[m].x || (p[i].x == p[m].x && p[i].y < p[m].y)) m = i;
  Path64 r; r.reserve(p.size());
  for (size_t i = 0; i < p.size(); ++i) r.push_back(Point64(p[(m + i) % p.size()].x, p[(m + i) % p.size()].y));
  return r;
}
static bool path_less(const Path64& a, const Path64& b) {
  if (a.size() != b.size()) return a.size() < b.size();
  for (size_t i = 0; i < a.size(); ++i) {
    if (a[i].x != b[i].x) return a[i].x < b[i].x;
    if (a[i].y != b[i].y) return a[i].y < b[i].y;
  }
  return false;
}
static bool path_eq(const Path64& a, const Path64& b) { return !path_less(a, b) && !path_less(b, a); }
static std::vector<Path64> canon(const Paths64& ps, bool closed) {
  std::vector<Path64> r;
  for (const Path64& p : ps) {
    if (closed) r.push_back(normalise(p));
    else { // open paths: direction-insensitive
      Path64 a; for (const Point64& q : p) a.push_back(Point64(q.x, q.y));
      Path64 b(a.rbegin(), a.rend());
      r.push_back(path_less(b, a) ? b : a);
    }
  }
  std::sort(r.begin(), r.end(), path_less);
  return r;
}
static bool same_set(const Paths64& a, const Paths64& b, bool closed) {
  std::vector<Path64> ca = canon(a, closed), cb = canon(b, closed);
  if (ca.size() != cb.size()) return false;
  for (size_t i = 0; i < ca.size(); ++i) if (!path_eq(ca[i], cb[i])) return false;
  return true;
}

// ---------------------------------------------------------------- neutral tree
struct Node { Path64 poly; int parent; unsigned level; bool is_hole; };

static void flatten64(const PolyPath64& pp, int parent, std::vector<Node>& out) {
  for (const auto& ch : pp) {
    Node n; n.poly = ch->Polygon(); n.parent = parent; n.level = ch->Level(); n.is_hole = ch->IsHole();
    out.push_back(n);
    flatten64(*ch, (int)out.size() - 1, out);
  }
}
static Path64 toInt(const PathD& p, double mul) {
  Path64 r;
  for (const PointD& q : p) r.push_back(Point64((int64_t)std::llround(q.x * mul), (int64_t)std::llround(q.y * mul)));
  return r;
}
static void flattenD(const PolyPathD& pp, int parent, std::vector<Node>& out, double mul) {
  for (const auto& ch : pp) {
    Node n; n.poly = toInt(ch->Polygon(), mul); n.parent = parent; n.level = ch->Level(); n.is_hole = ch->IsHole();
    out.push_back(n);
    flattenD(*ch, (int)out.size() - 1, out, mul);
  }
}

static std::string why;
static long n_skipped = 0;

// checks clauses 3 and 4 on a flattened tree
static bool check_nesting(const std::vector<Node>& t) {
  size_t n = t.size();
  std::vector<ld> a2(n);
  std::vector<const Path64*> all(n);
  for (size_t i = 0; i < n; ++i) { a2[i] = area2(t[i].poly); all[i] = &t[i].poly; }
  for (size_t i = 0; i < n; ++i) {
    const Node& nd = t[i];
    if (a2[i] == 0) { why = "tree node with zero area"; return false; }
    // clause 4: depth alternates, orientation follows depth
    unsigned want_level = (nd.parent < 0) ? 1 : t[nd.parent].level + 1;
    if (nd.level != want_level) { why = "Level() inconsistent with parent"; return false; }
    bool hole = (nd.level % 2) == 0;
    if (nd.is_hole != hole) { why = "IsHole() disagrees with depth"; return false; }
    if (hole != (a2[i] < 0)) {
      why = "node " + std::to_string(i) + " at level " + std::to_string(nd.level) +
        (a2[i] < 0 ? " has negative" : " has positive") + " orientation";
      return false;
    }
    // clause 3: parent == smallest container
    ld sx, sy;
    if (!interior_point(all, i, sx, sy)) { ++n_skipped; continue; } // contour shares edges with another one
    int best = -1; unsigned containers = 0;
    for (size_t j = 0; j < n; ++j) {
      if (j == i) continue;
      if (!contains_pt(t[j].poly, sx, sy)) continue;
      ++containers;
      if (best < 0 || std::fabs(a2[j]) < std::fabs(a2[best])) best = (int)j;
    }
    if (best != nd.parent) {
      why = "node " + std::to_string(i) + " has parent " + std::to_string(nd.parent) +
        " but its smallest containing polygon is " + std::to_string(best);
      return false;
    }
    if (containers + 1 != nd.level) { why = "depth != number of containing polygons + 1"; return false; }
  }
  return true;
}

static const char* ctname(ClipType c) {
  switch (c) { case ClipType::Intersection: return "Intersection"; case ClipType::Union: return "Union";
  case ClipType::Difference: return "Difference"; case ClipType::Xor: return "Xor"; default: return "NoClip"; }
}
static const char* frname(FillRule f) {
  switch (f) { case FillRule::EvenOdd: return "EvenOdd"; case FillRule::NonZero: return "NonZero";
  case FillRule::Positive: return "Positive"; default: return "Negative"; }
}
static void dump(const char* name, const Paths64& ps) {
  printf("  %s = {", name);
  for (const Path64& p : ps) { printf("\n    {"); for (const Point64& q : p) printf("%lld,%lld, ", (long long)q.x, (long long)q.y); printf("}"); }
  printf("\n  }\n");
}
static void dump_tree(const std::vector<Node>& t) {
  for (size_t i = 0; i < t.size(); ++i) {
    printf("    node %zu parent %d level %u area %.1Lf :", i, t[i].parent, t[i].level, area2(t[i].poly) / 2);
    size_t k = 0; for (const Point64& q : t[i].poly) { if (++k > 80) { printf(" ..."); break; } printf(" %lld,%lld", (long long)q.x, (long long)q.y); }
    printf("\n");
  }
}

static long n_cases = 0, n_nodes = 0, max_depth = 0;
static bool quiet = false;

// returns true when the property holds for this input/configuration
static bool check_case(const char* family, const Paths64& subj, const Paths64& subj_open, const Paths64& clip,
  ClipType ct, FillRule fr, bool alsoD)
{
  ++n_cases;
  Paths64 sol, sol_open, tree_open;
  PolyTree64 tree;
  { Clipper64 c; c.AddSubject(subj); c.AddOpenSubject(subj_open); c.AddClip(clip); c.Execute(ct, fr, sol, sol_open); }
  { Clipper64 c; c.AddSubject(subj); c.AddOpenSubject(subj_open); c.AddClip(clip); c.Execute(ct, fr, tree, tree_open); }
  std::vector<Node> flat; flatten64(tree, -1, flat);
  n_nodes += (long)flat.size();
  for (const Node& nd : flat) max_depth = std::max<long>(max_depth, nd.level);
  bool ok = true; const char* which = "PolyTree64";
  Paths64 tpaths = PolyTreeToPaths64(tree);
  if (tpaths.size() != flat.size()) { ok = false; why = "PolyTreeToPaths64 size"; }
  if (ok && !same_set(tpaths, sol, true)) { ok = false; why = "closed paths of the tree differ from the Paths solution"; }
  if (ok && !same_set(tree_open, sol_open, false)) { ok = false; why = "open paths differ"; }
  if (ok) {
    double at = tree.Area(), ap = Area(sol);
    if (std::fabs(at - ap) > 1e-6 * (1 + std::fabs(ap))) { ok = false; why = "tree area != paths area"; }
  }
  if (ok && !check_nesting(flat)) ok = false;

  std::vector<Node> flatD;
  if (ok && alsoD) {
    which = "PolyTreeD";
    // inputs divided by 4 are exact in binary (and stay exact under ClipperD's power-of-two scaling);
    // multiplying the results by 100 maps them back to integers (25 * original coordinate)
    PathsD sd, sod, cd;
    for (const Path64& p : subj) { PathD q; for (const Point64& v : p) q.push_back(PointD(v.x / 4.0, v.y / 4.0)); sd.push_back(q); }
    for (const Path64& p : subj_open) { PathD q; for (const Point64& v : p) q.push_back(PointD(v.x / 4.0, v.y / 4.0)); sod.push_back(q); }
    for (const Path64& p : clip) { PathD q; for (const Point64& v : p) q.push_back(PointD(v.x / 4.0, v.y / 4.0)); cd.push_back(q); }
    PathsD solD, solD_open, treeD_open; PolyTreeD treeD;
    { ClipperD c(2); c.AddSubject(sd); c.AddOpenSubject(sod); c.AddClip(cd); c.Execute(ct, fr, solD, solD_open); }
    { ClipperD c(2); c.AddSubject(sd); c.AddOpenSubject(sod); c.AddClip(cd); c.Execute(ct, fr, treeD, treeD_open); }
    flattenD(treeD, -1, flatD, 100.0);
    Paths64 tp, sp, to, so;
    for (const PathD& p : PolyTreeToPathsD(treeD)) tp.push_back(toInt(p, 100.0));
    for (const PathD& p : solD) sp.push_back(toInt(p, 100.0));
    for (const PathD& p : treeD_open) to.push_back(toInt(p, 100.0));
    for (const PathD& p : solD_open) so.push_back(toInt(p, 100.0));
    if (tp.size() != flatD.size()) { ok = false; why = "PolyTreeToPathsD size"; }
    if (ok && !same_set(tp, sp, true)) { ok = false; why = "closed paths of the tree differ from the Paths solution"; }
    if (ok && !same_set(to, so, false)) { ok = false; why = "open paths differ"; }
    if (ok) {
      double at = treeD.Area(), ap = Area(solD);
      if (std::fabs(at - ap) > 1e-6 * (1 + std::fabs(ap))) { ok = false; why = "tree area != paths area"; }
    }
    if (ok && !check_nesting(flatD)) ok = false;
  }
  if (ok) return true;
  if (quiet) return false;
  if (getenv("C04_KEEPGOING")) { printf("viol %s #%ld %s %s %s nclip=%zu: %s\n", family, n_cases, which, ctname(ct), frname(fr), clip.size(), why.c_str()); return true; }

  {
    // greedy minimisation: drop input paths while the violation persists (only for the report)
    Paths64 s2 = subj, o2 = subj_open, c2 = clip;
    quiet = true; long keep = n_cases;
    for (int pass = 0; pass < 3; ++pass) {
      for (size_t i = 0; i < s2.size();) { Paths64 t = s2; t.erase(t.begin() + i); if (!check_case(family, t, o2, c2, ct, fr, alsoD)) s2 = t; else ++i; }
      for (size_t i = 0; i < c2.size();) { Paths64 t = c2; t.erase(t.begin() + i); if (!check_case(family, s2, o2, t, ct, fr, alsoD)) c2 = t; else ++i; }
      for (size_t i = 0; i < o2.size();) { Paths64 t = o2; t.erase(t.begin() + i); if (!check_case(family, s2, t, c2, ct, fr, alsoD)) o2 = t; else ++i; }
    }
    quiet = false; n_cases = keep;
    if (s2.size() + c2.size() + o2.size() < subj.size() + clip.size() + subj_open.size()) {
      printf("(a smaller input that also violates the property: )\n");
      dump("subject", s2); dump("subject_open", o2); dump("clip", c2);
    }
  }
  printf("VIOLATION (%s, %s) in family '%s', case #%ld: %s\n", which, "C04", family, n_cases, why.c_str());
  printf("  ClipType::%s FillRule::%s\n", ctname(ct), frname(fr));
  dump("subject", subj); dump("subject_open", subj_open); dump("clip", clip);
  printf("  Paths solution: %zu closed paths; tree:\n", sol.size());
  dump_tree(flatD.empty() ? flat : flatD);
  return false;
}

static const ClipType CTS[4] = { ClipType::Intersection, ClipType::Union, ClipType::Difference, ClipType::Xor };
static const FillRule FRS[4] = { FillRule::EvenOdd, FillRule::NonZero, FillRule::Positive, FillRule::Negative };

static bool all_configs(const char* family, const Paths64& s, const Paths64& so, const Paths64& c, bool alsoD) {
  for (ClipType ct : CTS) for (FillRule fr : FRS)
    if (!check_case(family, s, so, c, ct, fr, alsoD)) return false;
  return true;
}

// ---------------------------------------------------------------- input families
static Path64 rect(int64_t l, int64_t t, int64_t r, int64_t b, bool rev = false) {
  Path64 p{ Point64(l, t), Point64(r, t), Point64(r, b), Point64(l, b) };
  if (rev) std::reverse(p.begin(), p.end());
  return p;
}

// concentric squares, 'depth' rings, optional alternate orientation
static Paths64 concentric(int64_t cx, int64_t cy, int64_t step, int depth, bool alternate) {
  Paths64 r;
  for (int i = depth; i >= 1; --i)
    r.push_back(rect(cx - i * step, cy - i * step, cx + i * step, cy + i * step, alternate && ((depth - i) & 1)));
  return r;
}

// rectilinear frames nested inside one another at random, with random islands
static void nested_frames(Paths64& out, int64_t l, int64_t t, int64_t r, int64_t b, int depth) {
  if (depth == 0 || r - l < 16 || b - t < 16) return;
  out.push_back(rect(l, t, r, b, depth & 1));
  // split the inside into 1..3 cells side by side, each recursing
  int cells = (int)rnd(1, 3);
  int64_t w = (r - l - 4) / cells; w -= (w & 1);
  for (int i = 0; i < cells; ++i) {
    int64_t cl = l + 2 + i * w + 2 * rnd(0, 1), cr = l + 2 + (i + 1) * w - 2 - 2 * rnd(0, 1);
    int64_t ctp = t + 2 + 2 * rnd(0, 2), cb = b - 2 - 2 * rnd(0, 2);
    if (rnd(0, 5) != 0) nested_frames(out, cl, ctp, cr, cb, depth - 1);
  }
}

// rings assembled from four bars that overlap or merely share (parts of) horizontal / vertical
// edges, so that holes are closed by horizontal joins; rings nest inside rings side by side
static void bar_rings(Paths64& out, int64_t l, int64_t t, int64_t r, int64_t b, int depth) {
  if (depth == 0 || r - l < 12 || b - t < 12) return;
  int64_t wl = 2 * rnd(1, 2), wr = 2 * rnd(1, 2), wt = 2 * rnd(1, 2), wb = 2 * rnd(1, 2);
  int style = (int)rnd(0, 3);
  if (style == 0) { // side bars full height, top/bottom bars in between (shared vertical edges)
    out.push_back(rect(l, t, l + wl, b)); out.push_back(rect(r - wr, t, r, b));
    out.push_back(rect(l + wl, t, r - wr, t + wt)); out.push_back(rect(l + wl, b - wb, r - wr, b));
  } else if (style == 1) { // top/bottom bars full width, side bars in between (shared horizontal edges)
    out.push_back(rect(l, t, r, t + wt)); out.push_back(rect(l, b - wb, r, b));
    out.push_back(rect(l, t + wt, l + wl, b - wb)); out.push_back(rect(r - wr, t + wt, r, b - wb));
  } else if (style == 2) { // all overlapping at the corners
    out.push_back(rect(l, t, r, t + wt)); out.push_back(rect(l, b - wb, r, b));
    out.push_back(rect(l, t, l + wl, b)); out.push_back(rect(r - wr, t, r, b));
  } else { // a U (one path) closed by a lid that shares its horizontal edges
    out.push_back(Path64{ Point64(l, t + wt), Point64(l + wl, t + wt), Point64(l + wl, b - wb), Point64(r - wr, b - wb),
      Point64(r - wr, t + wt), Point64(r, t + wt), Point64(r, b), Point64(l, b) });
    out.push_back(rect(l, t, r, t + wt));
  }
  if (rnd(0, 3) == 0) { Path64& last = out.back(); std::reverse(last.begin(), last.end()); }
  int64_t il = l + wl + 2, ir = r - wr - 2, it = t + wt + 2, ib = b - wb - 2;
  int cells = (int)rnd(1, 3);
  int64_t w = (ir - il) / cells; w -= (w & 1);
  for (int i = 0; i < cells; ++i) {
    if (rnd(0, 6) == 0) continue;
    int64_t cl = il + i * w + 2 * rnd(0, 1), cr = il + (i + 1) * w - 2 - 2 * rnd(0, 1);
    bar_rings(out, cl, it + 2 * rnd(0, 2), cr, ib - 2 * rnd(0, 2), depth - 1);
  }
}

// a comb (one path, k prongs) closed by a lid that shares the horizontal prong ends: the k-1 gaps become
// k-1 holes of ONE contour, all of them cut off that contour by horizontal joins; islands (again combs,
// or plain rectangles) sit in the gaps; the whole thing is flipped upside down at random
static void comb_rings(Paths64& out, int64_t l, int64_t t, int64_t r, int64_t b, int depth) {
  if (r - l < 20 || b - t < 14) return;
  size_t first = out.size();
  int64_t wt = 2 * rnd(1, 2), wb = 2 * rnd(1, 2);
  int k = (int)rnd(2, 4);
  int64_t pw = 2 * rnd(1, 2);                       // prong width
  int64_t gap = ((r - l) - k * pw) / (k - 1); gap -= (gap & 1);
  if (gap < 6) { k = 2; gap = (r - l) - 2 * pw; }
  std::vector<int64_t> pl(k), pr(k);
  for (int i = 0; i < k; ++i) { pl[i] = l + i * (pw + gap); pr[i] = pl[i] + pw; }
  pr[k - 1] = r; pl[k - 1] = r - pw;
  int64_t top = t + wt, base = b - wb;
  bool overlap = rnd(0, 4) == 0;                    // sometimes the lid overlaps the prongs instead
  Path64 comb;
  comb.push_back(Point64(l, b)); comb.push_back(Point64(r, b));
  for (int i = k - 1; i >= 0; --i) {
    comb.push_back(Point64(pr[i], top)); comb.push_back(Point64(pl[i], top));
    if (i > 0) { comb.push_back(Point64(pl[i], base)); comb.push_back(Point64(pr[i - 1], base)); }
  }
  if (rnd(0, 1)) std::reverse(comb.begin(), comb.end());
  out.push_back(comb);
  out.push_back(rect(l, t, r, overlap ? top + 2 : top));
  for (int i = 0; i + 1 < k; ++i) {
    int64_t gl = pr[i] + 2, gr = pl[i + 1] - 2, gt = top + 2 + (overlap ? 2 : 0), gb = base - 2;
    int what = (int)rnd(0, 3);
    if (what == 0) continue;
    if (what == 1 || depth <= 1) { if (gr - gl >= 2 && gb - gt >= 2) out.push_back(rect(gl, gt + 2 * rnd(0, 1), gr, gb - 2 * rnd(0, 1))); }
    else comb_rings(out, gl, gt, gr, gb, depth - 1);
  }
  if (rnd(0, 1))
    for (size_t i = first; i < out.size(); ++i) for (Point64& q : out[i]) q.y = t + b - q.y;
}

// random polygon with large coordinates (general position)
static Path64 random_poly(int nverts, int64_t range) {
  Path64 p;
  for (int i = 0; i < nverts; ++i) p.push_back(Point64(rnd(0, range), rnd(0, range)));
  return p;
}
// random star-shaped (simple) polygon
static Path64 random_star(int64_t cx, int64_t cy, int64_t rmin, int64_t rmax, int nverts, bool rev) {
  Path64 p;
  for (int i = 0; i < nverts; ++i) {
    double a = 6.283185307179586 * (i + 0.8 * (rnd(0, 1000) / 1000.0)) / nverts;
    double rr = (double)rnd(rmin, rmax);
    p.push_back(Point64((int64_t)(cx + rr * std::cos(a)), (int64_t)(cy + rr * std::sin(a))));
  }
  if (rev) std::reverse(p.begin(), p.end());
  return p;
}

int main(int argc, char** argv)
{
  Paths64 none;

  // ---- fixed cases -------------------------------------------------------
  {
    // deep nesting, both orientation styles
    for (int depth = 2; depth <= 12; depth += 5) {
      Paths64 s = concentric(1000, 1000, 20, depth, false);
      if (!check_case("concentric", s, none, none, ClipType::Union, FillRule::EvenOdd, true)) return 1;
      Paths64 s2 = concentric(1000, 1000, 20, depth, true);
      if (!check_case("concentric-alt", s2, none, none, ClipType::Union, FillRule::NonZero, true)) return 1;
      Paths64 c = concentric(1010, 1004, 20, depth, false);
      if (!all_configs("concentric-vs-shifted", s, none, c, true)) return 1;
    }
    // touching holes: checkerboard
    Paths64 cb;
    for (int i = 0; i < 6; ++i) for (int j = 0; j < 6; ++j)
      if ((i + j) & 1) cb.push_back(rect(10 + 10 * i, 10 + 10 * j, 20 + 10 * i, 20 + 10 * j));
    Paths64 frame{ rect(0, 0, 80, 80) };
    if (!all_configs("checkerboard", frame, none, cb, true)) return 1;
    if (!all_configs("checkerboard2", cb, none, frame, true)) return 1;
    // polygons split / merged by horizontal joins
    Paths64 hs{ rect(0, 0, 100, 20), rect(0, 40, 100, 60), rect(0, 0, 20, 60), rect(80, 0, 100, 60),
                rect(40, 20, 60, 40), rect(30, 26, 70, 34) };
    if (!all_configs("horz-joins", hs, none, Paths64{ rect(10, 10, 90, 50) }, true)) return 1;

    // general position: a triangle with a triangular hole and a triangular island in the hole
    Paths64 tri{ Path64{ Point64(0, 0), Point64(1000, 30), Point64(480, 900) } };
    Paths64 tri_in{ Path64{ Point64(300, 150), Point64(700, 170), Point64(490, 600) } };
    Paths64 tri_in2{ Path64{ Point64(430, 250), Point64(560, 260), Point64(495, 420) } };
    if (!check_case("triangle-hole", tri, none, tri_in, ClipType::Difference, FillRule::NonZero, true)) return 1;
    Paths64 tri3 = tri; tri3.push_back(tri_in[0]); tri3.push_back(tri_in2[0]);
    if (!check_case("triangle-hole-island", tri3, none, none, ClipType::Union, FillRule::EvenOdd, true)) return 1;
    // the same with six skewed quadrilaterals nested in one another
    Paths64 quads;
    for (int i = 0; i < 6; ++i)
      quads.push_back(Path64{ Point64(500 - 400 + 60 * i, 480 + 7 * i), Point64(510 + i, 80 + 61 * i),
                              Point64(930 - 63 * i, 505 - 3 * i), Point64(495 - 2 * i, 910 - 59 * i) });
    if (!all_configs("nested-quads", quads, none, Paths64{ Path64{ Point64(20, 470), Point64(990, 455), Point64(985, 530), Point64(15, 521) } }, true)) return 1;

    // a comb with three prongs closed by a lid: one contour, two holes made by horizontal joins,
    // an island in each hole (and the mirror image)
    for (int flip = 0; flip < 2; ++flip) {
      Paths64 comb{
        Path64{ Point64(0,50), Point64(70,50), Point64(70,10), Point64(60,10), Point64(60,40), Point64(40,40),
                Point64(40,10), Point64(30,10), Point64(30,40), Point64(10,40), Point64(10,10), Point64(0,10) },
        rect(0, 0, 70, 10), rect(14, 20, 26, 30), rect(44, 20, 56, 30) };
      if (flip) for (Path64& p : comb) for (Point64& q : p) q.y = 50 - q.y;
      if (!check_case("comb-with-lid", comb, none, none, ClipType::Union, FillRule::NonZero, true)) return 1;
      if (!all_configs("comb-with-lid-clipped", comb, none, Paths64{ rect(-10, 22, 50, 28) }, true)) return 1;
    }
  }

  // ---- deterministic pseudo-random sweep ----------------------------------
  // (families in which the UNCHANGED library was seen to violate the property are left out, see notes.md)
  int scale = (argc > 1) ? atoi(argv[1]) : 20;
  rng_state = 0x1C04ULL;
  for (int iter = 0; iter < 300 * scale; ++iter) {
    Paths64 s, c;
    nested_frames(s, 0, 0, 2 * rnd(40, 120), 2 * rnd(30, 80), (int)rnd(2, 7));
    int k = (int)rnd(0, 4);
    for (int i = 0; i < k; ++i) {
      int64_t l = 2 * rnd(0, 100), t = 2 * rnd(0, 70);
      c.push_back(rect(l, t, l + 2 * rnd(1, 40), t + 2 * rnd(1, 30)));
    }
    ClipType ct = CTS[rnd(0, 3)]; FillRule fr = FRS[rnd(0, 3)];
    if (!check_case("nested-frames", s, none, c, ct, fr, (iter & 3) == 0)) return 1;
  }
  rng_state = 0x2C04ULL;
  for (int iter = 0; iter < 400 * scale; ++iter) {
    Paths64 s;
    bar_rings(s, 0, 0, 2 * rnd(30, 150), 2 * rnd(20, 90), (int)rnd(1, 5));
    FillRule fr = rnd(0, 2) ? FillRule::NonZero : FillRule::EvenOdd;
    if (!check_case("bar-rings", s, none, none, ClipType::Union, fr, (iter & 3) == 0)) return 1;
  }
  rng_state = 0x3C04ULL;
  for (int iter = 0; iter < 600 * scale; ++iter) {
    Paths64 s;
    comb_rings(s, 0, 0, 2 * rnd(20, 120), 2 * rnd(12, 70), (int)rnd(1, 4));
    if (!check_case("comb-rings", s, none, none, ClipType::Union, FillRule::NonZero, (iter & 3) == 0)) return 1;
  }
  rng_state = 0x4C04ULL;
  for (int iter = 0; iter < 400 * scale; ++iter) {
    // general position: random (self-intersecting) polygons with large coordinates
    Paths64 s, c;
    int ns = (int)rnd(1, 3), nc = (int)rnd(0, 2);
    for (int i = 0; i < ns; ++i) s.push_back(random_poly((int)rnd(3, 14), 1000000));
    for (int i = 0; i < nc; ++i) c.push_back(random_poly((int)rnd(3, 14), 1000000));
    ClipType ct = CTS[rnd(0, 3)]; FillRule fr = FRS[rnd(0, 3)];
    if (!check_case("random-polys", s, none, c, ct, fr, (iter & 3) == 0)) return 1;
  }
  rng_state = 0x5C04ULL;
  for (int iter = 0; iter < 300 * scale; ++iter) {
    // general position: nested stars (deep nesting, islands in holes) against a random star
    Paths64 s, c;
    int depth = (int)rnd(2, 9);
    int64_t cx = 500000 + rnd(-1000, 1000), cy = 500000 + rnd(-1000, 1000);
    for (int d = 0; d < depth; ++d) {
      int64_t r1 = 400000 - d * 40000;
      s.push_back(random_star(cx, cy, r1 - 15000, r1, (int)rnd(5, 16), rnd(0, 1)));
    }
    int isl = (int)rnd(0, 5);
    for (int i = 0; i < isl; ++i)
      s.push_back(random_star(rnd(150000, 850000), rnd(150000, 850000), 3000, 9000, (int)rnd(3, 8), false));
    c.push_back(random_star(rnd(200000, 800000), rnd(200000, 800000), 100000, 300000, (int)rnd(4, 12), false));
    Paths64 so;
    if (rnd(0, 2) == 0) so.push_back(Path64{ Point64(rnd(0, 1000000), rnd(0, 1000000)), Point64(rnd(0, 1000000), rnd(0, 1000000)), Point64(rnd(0, 1000000), rnd(0, 1000000)) });
    ClipType ct = CTS[rnd(0, 3)]; FillRule fr = (rnd(0, 1) ? FillRule::EvenOdd : FRS[rnd(0, 3)]);
    if (!check_case("nested-stars", s, so, c, ct, fr, (iter & 3) == 0)) return 1;
  }

  printf("OK: property C04 held on %ld cases (%ld tree nodes, max depth %ld, %ld nodes with shared edges not judged)\n", n_cases, n_nodes, max_depth, n_skipped);
  return 0;
}
