// LINK: engine
// native replay for C10_horzjoins: allocation-failure injection around polytree clipping (an earlier confirmed demonstration written from the property text alone)
// Allocation-failure injection demo for Clipper2 boolean clipping into a PolyTree.
//
// For a fixed input (two polygons touching themselves / each other along
// horizontal edges, unioned into a PolyTree64) this program makes the N-th heap allocation
// of the whole operation fail, for N = 0,1,2,... until the operation completes
// without an injected failure.  For each N it checks that
//   * std::bad_alloc reaches the caller, and
//   * Clipper64 / PolyTree64 / the path containers can be destroyed afterwards
//     without double frees or accesses to freed memory.
// Freed blocks are poisoned and quarantined (never reused), every delete is
// validated against a header, so a double delete or a walk through a freed
// linked list is detected deterministically (no sanitizer needed).
//
// exit 0 = property holds for this input, non-zero = violation (message printed).

#include <cstdio>
#include <cstdlib>
#include <cstring>
#include <cstdint>
#include <new>
#include <csignal>
#include <unistd.h>
#include "clipper2/clipper.h"

namespace {
  const uint64_t LIVE = 0xA110CA7EDB10C0DEull;
  const uint64_t DEAD = 0xDEADDEADDEADDEADull;
  struct Hdr { uint64_t magic; uint64_t size; };

  bool   g_inject = false;     // injection armed?
  long   g_countdown = -1;     // allocations left before the injected failure
  bool   g_fired = false;      // did the injected failure happen (throwing operator new)?
  bool   g_fired_nothrow = false; // ... or in a nothrow operator new (std::stable_sort's buffer)?
  long   g_iter = -1;          // current N (for messages)
  const char* g_phase = "";

  void die(const char* what)
  {
    char buf[256];
    int n = snprintf(buf, sizeof buf,
      "FAIL: %s (allocation #%ld made to fail, phase: %s)\n", what, g_iter, g_phase);
    if (n > 0) { ssize_t r = write(1, buf, (size_t)n); (void)r; }
    _exit(1);
  }

  void on_signal(int sig)
  {
    die(sig == SIGSEGV ? "invalid memory access (SIGSEGV) - freed/poisoned memory was dereferenced"
                       : "fatal signal");
  }

  void* do_alloc(size_t sz, bool nothrow)
  {
    if (g_inject)
    {
      if (g_countdown == 0)
      {
        g_inject = false;
        if (nothrow) { g_fired_nothrow = true; return nullptr; }
        g_fired = true;
        throw std::bad_alloc();
      }
      --g_countdown;
    }
    Hdr* h = static_cast<Hdr*>(std::malloc(sizeof(Hdr) + sz));
    if (!h) { if (nothrow) return nullptr; throw std::bad_alloc(); }
    h->magic = LIVE; h->size = sz;
    return h + 1;
  }

  void do_free(void* p) noexcept
  {
    if (!p) return;
    Hdr* h = static_cast<Hdr*>(p) - 1;
    if (h->magic == DEAD) die("double delete of a heap block");
    if (h->magic != LIVE) die("delete of a pointer that is not a live heap block");
    h->magic = DEAD;
    std::memset(p, 0xDD, h->size);   // poison; block is quarantined for ever
  }
}

void* operator new(size_t sz) { return do_alloc(sz, false); }
void* operator new[](size_t sz) { return do_alloc(sz, false); }
void* operator new(size_t sz, const std::nothrow_t&) noexcept { return do_alloc(sz, true); }
void* operator new[](size_t sz, const std::nothrow_t&) noexcept { return do_alloc(sz, true); }
void operator delete(void* p, const std::nothrow_t&) noexcept { do_free(p); }
void operator delete[](void* p, const std::nothrow_t&) noexcept { do_free(p); }
void operator delete(void* p) noexcept { do_free(p); }
void operator delete[](void* p) noexcept { do_free(p); }
void operator delete(void* p, size_t) noexcept { do_free(p); }
void operator delete[](void* p, size_t) noexcept { do_free(p); }

using namespace Clipper2Lib;

int main()
{
  signal(SIGSEGV, on_signal);
  signal(SIGBUS, on_signal);
  signal(SIGABRT, on_signal);

  // 'arch': a square frame (0,0)-(40,40) whose hole (10,10)-(30,30) is connected to
  // the outside by a zero-width horizontal slit along y=20 (so the solution is
  // produced by *splitting* this output ring at a horizontal join), with an arm
  // (40,0)-(80,10) sticking out to the right.
  // 'under': a rectangle hanging under the arm and sharing part of the arm's
  // horizontal edge y=10 (so it gets *joined* to the arch by a later horizontal join).
  Paths64 subject;
  subject.push_back(MakePath({ 0,0, 80,0, 80,10, 40,10, 40,20, 30,20, 30,10,
    10,10, 10,30, 30,30, 30,20, 40,20, 40,40, 0,40 }));
  subject.push_back(MakePath({ 50,10, 70,10, 70,30, 50,30 }));

  long n = 0;
  for (;; ++n)
  {
    g_iter = n;
    bool completed = false, got_bad_alloc = false;
    try
    {
      g_phase = "operation";
      Clipper64 c;
      PolyTree64 tree;
      g_countdown = n; g_fired = false; g_fired_nothrow = false; g_inject = true;
      c.AddSubject(subject);
      c.Execute(ClipType::Union, FillRule::NonZero, tree);
      g_inject = false;
      completed = true;
      g_phase = "destruction after success";
    }
    catch (const std::bad_alloc&)
    {
      // the Clipper64 and PolyTree64 objects have been destroyed during unwinding
      g_inject = false;
      got_bad_alloc = true;
    }
    catch (...)
    {
      g_inject = false;
      die("an exception other than std::bad_alloc reached the caller");
    }
    g_inject = false;

    if (completed)
    {
      if (g_fired) die("allocation failure was swallowed: operation reported success");
      if (g_fired_nothrow) continue; // a nothrow request failed; the library coped, try next N
      break;
    }
    if (!got_bad_alloc) die("operation neither completed nor threw std::bad_alloc");
    if (n > 100000) die("operation never completes");
  }
  std::printf("OK: %ld single-allocation failures injected; bad_alloc always reached the caller "
              "and all objects were destroyed without invalid memory access\n", n);
  return 0;
}
