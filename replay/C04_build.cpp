// Native replay for unit C04_build: the independent oracle program written for seed C04-2 by a sub-agent that saw only the property text
// (exit 0: property held on everything tried; non-zero: a failing input is printed).  Runs the public API of the library built from /repo's working tree.
// LINK: engine offset rectclip
// Property C04, clause "executing into a PolyTree yields exactly the same set of
// closed paths (and the same open paths) as executing into Paths ... and the tree's
// total area equals the paths' total area ... both PolyTree64 and PolyTreeD".
//
// The program feeds the same input to two fresh clipper objects, one executing into
// Paths and one into a PolyTree, for Clipper64 and for ClipperD, and compares
//   * the multiset of closed paths (tree flattened by its own traversal, and through
//     PolyTreeToPaths64 / PolyTreeToPathsD),
//   * the multiset of open paths,
//   * the total signed area: own exact shoelace sums, and PolyPath64/PolyPathD::Area().
// Inputs: three fixed general-position inputs plus a deterministic pseudo-random sweep of
// general-position polygons (all clip types x all fill rules).
// exit status 0: no violation, 1: violation(s) found.
#include "clipper2/clipper.h"
#include <cstdio>
#include <cstdint>
#include <cmath>
#include <vector>
#include <algorithm>
#include <random>
#include <string>

using namespace Clipper2Lib;

typedef std::pair<int64_t, int64_t> IPt;
typedef std::vector<IPt> IPoly;

static int g_viol = 0;
static long g_runs = 0;

static __int128 area2(const IPoly& p)
{
  __int128 s = 0;
  for (size_t i = 0, n = p.size(); i < n; ++i) {
    const IPt& a = p[i]; const IPt& b = p[(i + 1) % n];
    s += (__int128)a.first * b.second - (__int128)b.first * a.second;
  }
  return s;
}
// rotation-independent representation of a closed path (orientation is kept)
static IPoly canon(const IPoly& p)
{
  if (p.empty()) return p;
  IPt mn = *std::min_element(p.begin(), p.end());
  IPoly best;
  for (size_t s = 0; s < p.size(); ++s) {
    if (p[s] != mn) continue;
    IPoly r(p.begin() + s, p.end()); r.insert(r.end(), p.begin(), p.begin() + s);
    if (best.empty() || r < best) best = r;
  }
  return best;
}
static IPoly canon_open(IPoly p)
{
  if (p.size() && p.back() < p.front()) std::reverse(p.begin(), p.end());
  return p;
}
static IPoly conv(const Path64& p) { IPoly r; for (auto& v : p) r.push_back(IPt(v.x, v.y)); return r; }
static IPoly conv(const PathD& p, double sc)
{
  IPoly r; for (auto& v : p) r.push_back(IPt((int64_t)std::llround(v.x * sc), (int64_t)std::llround(v.y * sc))); return r;
}
static void flat(const PolyPath64& pp, std::vector<IPoly>& out) { for (auto& c : pp) { out.push_back(conv(c->Polygon())); flat(*c, out); } }
static void flat(const PolyPathD& pp, std::vector<IPoly>& out, double sc) { for (auto& c : pp) { out.push_back(conv(c->Polygon(), sc)); flat(*c, out, sc); } }

static const char* ctn[] = { "NoClip","Intersection","Union","Difference","Xor" };
static const char* frn[] = { "EvenOdd","NonZero","Positive","Negative" };

static std::string dump(const Paths64& ps, double div)
{
  std::string s; char buf[64];
  for (auto& p : ps) { s += "    {"; for (auto& v : p) { snprintf(buf, sizeof buf, "%g,%g, ", v.x / div, v.y / div); s += buf; } s += "}\n"; }
  return s;
}

static void compare(const char* variant, const char* tag, ClipType ct, FillRule fr,
  std::vector<IPoly> closed, std::vector<IPoly> open_p, std::vector<IPoly> tree_closed,
  std::vector<IPoly> tree_to_paths, std::vector<IPoly> open_t, __int128 lib_area2,
  const Paths64& subj, const Paths64& open, const Paths64& clip, double div)
{
  ++g_runs;
  std::string why;
  __int128 a_paths = 0, a_tree = 0;
  for (auto& p : closed) a_paths += area2(p);
  for (auto& p : tree_closed) a_tree += area2(p);
  for (auto& p : closed) p = canon(p);
  for (auto& p : tree_closed) p = canon(p);
  for (auto& p : tree_to_paths) p = canon(p);
  for (auto& p : open_p) p = canon_open(p);
  for (auto& p : open_t) p = canon_open(p);
  std::sort(closed.begin(), closed.end()); std::sort(tree_closed.begin(), tree_closed.end());
  std::sort(tree_to_paths.begin(), tree_to_paths.end());
  std::sort(open_p.begin(), open_p.end()); std::sort(open_t.begin(), open_t.end());
  if (closed != tree_closed)
    why += "  closed paths differ: Paths has " + std::to_string(closed.size()) + ", PolyTree has " + std::to_string(tree_closed.size()) + "\n";
  if (closed != tree_to_paths)
    why += "  PolyTreeToPaths differs from Paths: " + std::to_string(tree_to_paths.size()) + " vs " + std::to_string(closed.size()) + "\n";
  if (open_p != open_t)
    why += "  open paths differ: " + std::to_string(open_p.size()) + " vs " + std::to_string(open_t.size()) + "\n";
  if (a_paths != a_tree)
    why += "  total area differs: 2*area(Paths)=" + std::to_string((long long)a_paths) + " 2*area(tree)=" + std::to_string((long long)a_tree) + "\n";
  if (lib_area2 != a_paths)
    why += "  PolyTree.Area() differs from area of Paths: 2*area(Paths)=" + std::to_string((long long)a_paths) + " 2*tree.Area()=" + std::to_string((long long)lib_area2) + "\n";
  if (!why.empty()) {
    ++g_viol;
    if (g_viol <= 6) {
      printf("VIOLATION [%s, %s] %s %s\n%s", variant, tag, ctn[(int)ct], frn[(int)fr], why.c_str());
      printf("  subject:\n%s  clip:\n%s", dump(subj, div).c_str(), dump(clip, div).c_str());
      fflush(stdout);
    }
  }
}

static void run64(const Paths64& subj, const Paths64& open, const Paths64& clip, ClipType ct, FillRule fr, const char* tag)
{
  Paths64 sol, sol_open, t_open; PolyTree64 tree;
  { Clipper64 c; c.AddSubject(subj); c.AddOpenSubject(open); c.AddClip(clip); c.Execute(ct, fr, sol, sol_open); }
  { Clipper64 c; c.AddSubject(subj); c.AddOpenSubject(open); c.AddClip(clip); c.Execute(ct, fr, tree, t_open); }
  std::vector<IPoly> a, ao, b, b2, bo;
  for (auto& p : sol) a.push_back(conv(p));
  for (auto& p : sol_open) ao.push_back(conv(p));
  for (auto& p : t_open) bo.push_back(conv(p));
  flat(tree, b);
  for (auto& p : PolyTreeToPaths64(tree)) b2.push_back(conv(p));
  compare("Clipper64/PolyTree64", tag, ct, fr, a, ao, b, b2, bo, (__int128)std::llround(tree.Area() * 2), subj, open, clip, 1.0);
}

// the integer data is divided by 'div' (a power of two, so the conversion is exact)
// and handed to ClipperD with precision 2 (internal scale 128)
static void runD(const Paths64& subj, const Paths64& open, const Paths64& clip, ClipType ct, FillRule fr, const char* tag, double div)
{
  auto toD = [&](const Paths64& ps) { PathsD r; for (auto& p : ps) { PathD q; for (auto& v : p) q.push_back(PointD(v.x / div, v.y / div)); r.push_back(q); } return r; };
  PathsD s = toD(subj), so = toD(open), cl = toD(clip);
  PathsD sol, sol_open, t_open; PolyTreeD tree;
  { ClipperD c(2); c.AddSubject(s); c.AddOpenSubject(so); c.AddClip(cl); c.Execute(ct, fr, sol, sol_open); }
  { ClipperD c(2); c.AddSubject(s); c.AddOpenSubject(so); c.AddClip(cl); c.Execute(ct, fr, tree, t_open); }
  const double sc = 128.0; // results are multiples of 1/128
  std::vector<IPoly> a, ao, b, b2, bo;
  for (auto& p : sol) a.push_back(conv(p, sc));
  for (auto& p : sol_open) ao.push_back(conv(p, sc));
  for (auto& p : t_open) bo.push_back(conv(p, sc));
  flat(tree, b, sc);
  for (auto& p : PolyTreeToPathsD(tree)) b2.push_back(conv(p, sc));
  compare("ClipperD/PolyTreeD", tag, ct, fr, a, ao, b, b2, bo, (__int128)std::llround(tree.Area() * sc * sc * 2), subj, open, clip, div);
}

static void all_ops(const Paths64& subj, const Paths64& open, const Paths64& clip, const char* tag, double div)
{
  for (int ct = 1; ct <= 4; ++ct)
    for (int fr = 0; fr <= 3; ++fr) {
      run64(subj, open, clip, (ClipType)ct, (FillRule)fr, tag);
      runD(subj, open, clip, (ClipType)ct, (FillRule)fr, tag, div);
    }
}

typedef std::mt19937_64 Rng;
static int64_t ri(Rng& r, int64_t lo, int64_t hi) { return lo + (int64_t)(r() % (uint64_t)(hi - lo + 1)); }
static Paths64 gen(Rng& r, int npoly, int maxv, int64_t range)
{
  Paths64 ps;
  for (int i = 0; i < npoly; ++i) {
    int n = (int)ri(r, 3, maxv);
    Path64 p; for (int k = 0; k < n; ++k) p.push_back(Point64(ri(r, 0, range), ri(r, 0, range)));
    ps.push_back(p);
  }
  return ps;
}

int main()
{
  // ---- fixed inputs (integer data, used as x/4 in ClipperD) ----
  {
    Paths64 s = { MakePath({ 1438,1934, 1290,849, 386,1906, 566,1075, 1663,857, 1127,1865, 1940,1038, 266,726, 1354,1799, 302,160, 1246,893 }) };
    Paths64 c = { MakePath({ 386,1298, 1882,1097, 582,234, 986,658 }) };
    all_ops(s, Paths64(), c, "fixed-1", 4.0);
  }
  {
    Paths64 s = { MakePath({ 1247,1439, 1107,905, 927,1516, 1508,1494, 1508,885, 1154,1166 }),
                  MakePath({ 1002,209, 1159,173, 565,303, 328,855, 1847,1893 }) };
    Paths64 c = { MakePath({ 861,995, 232,765, 1991,1078, 1865,1674, 1556,779 }),
                  MakePath({ 399,1744, 1170,399, 548,731, 1703,579 }) };
    all_ops(s, Paths64(), c, "fixed-2", 4.0);
  }
  {
    Paths64 s = { MakePath({ 1329,1609, 1239,1911, 822,1911, 149,1705, 678,440 }),
                  MakePath({ 1921,1127, 64,1510, 386,1555, 1283,1225, 141,1096, 1544,1617 }),
                  MakePath({ 1919,1047, 141,406, 1076,89, 29,862, 1406,831, 835,1504, 75,736, 742,1611, 1697,946, 9,1053, 1366,512, 91,1386 }) };
    Paths64 c = { MakePath({ 1380,1709, 719,565, 1511,1874 }),
                  MakePath({ 1146,1148, 875,263, 1434,971, 1374,477 }) };
    all_ops(s, Paths64(), c, "fixed-3", 4.0);
  }
  printf("fixed inputs: %ld executions compared, %d violation(s)\n", g_runs, g_viol);
  fflush(stdout);

  // ---- deterministic sweep over general-position inputs ----
  Rng rng(20240917);
  for (int it = 0; it < 4000; ++it) {
    int64_t range = (it & 1) ? 2000 : 100000;
    Paths64 subj = gen(rng, (int)ri(rng, 1, 3), 3 + it % 12, range);
    Paths64 clip = gen(rng, (int)ri(rng, 1, 2), 3 + it % 9, range);
    Paths64 open; if (it % 3 == 0) open = gen(rng, 1, 4, range);
    all_ops(subj, open, clip, "sweep", (it & 1) ? 4.0 : 64.0);
  }
  printf("total: %ld executions compared, %d violation(s)\n", g_runs, g_viol);
  return g_viol ? 1 : 0;
}
