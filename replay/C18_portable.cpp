// Native replay for unit C18_portable: the real Multiply against unsigned __int128 on a grid of boundary 32-bit
// halves and random operands (the portable CrossProductSign branch is not compiled on this platform).
#include "clipper2/clipper.core.h"
#include "vf_replay.h"
using namespace Clipper2Lib;
int main(int argc, char** argv) {
  VfRng r(argc > 1 ? strtoull(argv[1], 0, 10) : 0);
  const uint64_t H[] = { 0, 1, 2, 3, 0x7FFFFFFF, 0x80000000, 0x80000001, 0xFFFFFFFE, 0xFFFFFFFF, 0x12345678 };
  std::vector<uint64_t> vals;
  for (uint64_t hi : H) for (uint64_t lo : H) vals.push_back(hi << 32 | lo);
  for (int i = 0; i < 2000; ++i) vals.push_back(r.next());
  for (size_t i = 0; i < vals.size(); ++i) for (size_t j = 0; j < vals.size(); j += (i < 100 ? 1 : 37)) {
    uint64_t a = vals[i], b = vals[j];
    unsigned __int128 w = (unsigned __int128)a * b;
    UInt128Struct m = Multiply(a, b);
    if (m.lo != (uint64_t)w || m.hi != (uint64_t)(w >> 64)) VF_FAIL("Multiply(0x%llx, 0x%llx) = hi 0x%llx lo 0x%llx, expected hi 0x%llx lo 0x%llx", (unsigned long long)a, (unsigned long long)b, (unsigned long long)m.hi, (unsigned long long)m.lo, (unsigned long long)(uint64_t)(w >> 64), (unsigned long long)(uint64_t)w);
  }
  printf("C18_portable replay: %d failing inputs\n", vf_fails);
  return vf_fails ? 1 : 0;
}
